#!/usr/bin/env python3
"""Regenerates /verif/MANIFEST.json from the table below (kept in one place so it stays valid)."""
import json, os, subprocess
ROOT = os.path.dirname(os.path.dirname(os.path.abspath(__file__)))

# id -> (engine, level, technique, text, note, design_ref)
CHECKS = {
 "C01": ("product-machine", "model_checking", "explicit-state BFS over (TypeState x runtime state x event) on the real compiler/runtime; invariant on every transition",
         "Breadth-first search over all statement sequences (~340-statement alphabet to depth 2, 44-statement core alphabet to depth 3; thorough: depth 4) x 6 external-type configurations x conforming events. Each transition compiles one statement with compile_with_state under the current TypeState and runs it on the carried RuntimeState; the whole path is also compiled in one piece and run from the initial event. On every transition: result in reported kind (or returns kind), final event/metadata in reported external kinds, every bound variable in its reported kind. Plus the operator typing grid (props/opgrid.rs): `.r = .a OP .b` for 13 operators (and `!`, `if`, template strings) under schemas declaring every singleton / two-member union of 8 kinds; every accepted program is run on all representative value pairs and its result and event must be in the reported kinds.",
         "Independent membership predicate (harness/src/model/member.rs) over Kind's public accessors; hook H1 exposes LocalEnv bindings read-only. Programs outside the alphabet are not covered; stdlib type_defs are C03's job.", "3.1"),
 "C02": ("product-machine", "model_checking", "explicit-state BFS on the real compiler/runtime (no cut after state corruption); outcome invariant on every transition",
         "Same exploration as C01 but continued past corrupted type states: every accepted statement path without `f!(..)`/`abort` must end Ok/Return on every conforming event (NaN error text excepted), ProgramInfo.fallible==false implies no runtime error and abortable==false implies no abort, on the step-wise and the whole-program compilation. Plus the operator typing grid (props/opgrid.rs): a program `.r = .a OP .b` accepted without error handling under any declared operand kinds must not fail on any value of those kinds.",
         "NaN exception recognised by ValueError::NanFloat's own text. Attribution inside programs that also use `!` (hook H2) is not built: such programs are only checked against ProgramInfo.", "3.1"),
 "C03": ("stdlib-sweep", "exploration", "bounded-exhaustive argument-tuple enumeration per stdlib function in sacrificial worker processes",
         "For each of 188 stdlib functions: full cross product of per-parameter alphabets (enum variants + literals harvested from the function's own examples + per-kind edge values, shrunk longest-first to a per-function cap), optional parameters one at a time, closure bodies; literal and runtime-typed argument modes. Result must be in the call's static kind and in return_kind(); a call compiled without `!` must not error; a wrong-typed runtime argument must error.",
         "Alphabets are finite; values beyond them are not covered. Membership predicate as in C01.", "3.3"),
 "C04": ("stdlib-sweep + text-enumeration", "exploration", "bounded-exhaustive enumeration of stdlib calls and of token sequences with panic capture",
         "Every case of the stdlib sweep (compile and run under catch_unwind in sacrificial workers) plus every token sequence up to the length bound through parse/compile/diagnostic rendering/run: no panic. Capacity-overflow/allocation failures are counted as out of scope, as the property says.",
         "Harness profile has overflow-checks on (DESIGN R3): arithmetic overflow panics count. Inputs outside the alphabets are not covered.", "3.3/3.4"),
 "C05": ("stdlib-sweep", "exploration", "bounded-exhaustive argument-tuple enumeration with a CPU-time watchdog in sacrificial worker processes",
         "Same enumeration as C03 including extreme integers and non-finite floats; each call must return within 4 s of CPU time (suspects re-run alone with 60 s) and stay under a 6 GiB address-space cap.",
         "Decides non-termination / unbounded growth on the enumerated tuples; the asymptotic clause is not decided (no deterministic cost measure). zstd levels >= 20 excluded (constant ~30 s table set-up in this build profile).", "3.3"),
 "C06": ("differential-enumeration", "exploration", "exhaustive enumeration of programs from a context grammar, each run on all events and compared with a reference interpreter",
         "All programs S(E1(E2(hole))) over 13 statement contexts x 18x18 expression contexts x return-holes, plus closure iteration-value programs, on a 10-event alphabet; outcome, result, final event, variables and both execution paths (Runtime::resolve, Program::resolve) compared with the reference interpreter's expectation embedded in the witness.",
         "Reference interpreter (harness/src/model/interp.rs) implements the property wording for VRL-core; cases outside its domain are skipped and counted.", "3.2"),
 "C07": ("differential-enumeration", "exploration", "exhaustive enumeration of programs from a context grammar against a reference interpreter",
         "Same contexts as C06 with abort-holes (bare, with message, conditional, per-iteration inside closures): Terminate::Abort with the message, no later marker set, nothing intercepts it.",
         "As C06.", "3.2"),
 "C08": ("differential-enumeration", "exploration", "exhaustive enumeration of `??` / `ok, err =` programs against a reference interpreter",
         "All programs `t = L ?? R`, `(L ?? R') ?? 99`, `ok, err = L` over 13 fallible left sides of several result types, 8 right sides with side-effect markers and 10 target shapes, on the 10-event alphabet: right side not evaluated on success, err null/string, documented defaults, and the stored value belongs to the static type of ok (hook H1).",
         "As C06; the default of `ok` is compared only where the right-hand side has one static type.", "3.2"),
 "C09": ("differential-enumeration", "exploration", "exhaustive enumeration of short-circuit / conditional programs against a reference interpreter",
         "All `A op B`, `(A op B) op2 C`, `A op (B op2 C)` for ||/&& over 13 left operands x 7 side-effecting right operands, and all if / else-if / else / nested-if programs over 9 predicates, on the 10-event alphabet: value, markers of evaluated operands/branches, variables.",
         "As C06; operands outside an operator's boolean domain are skipped (the property does not fix their evaluation order).", "3.2"),
 "C10": ("law-engine", "exploration", "exhaustive operand-pair enumeration against i64/IEEE/bytewise reference",
         "Every ordered pair of the per-kind operand alphabets (integers incl. 2^k±2 and i64 extremes, floats incl. ±0/±inf/2^53, byte strings incl. non-UTF-8, timestamps, nested values) is run through compiled `.a <op> .b` programs for all six comparison operators under an exact-kind and an `any` environment; verdicts are compared with a reference ordering, and trichotomy/negation/consistency are checked on the operators themselves.",
         "Reference = Rust's i64/f64/byte-slice/DateTime ordering; operands outside the alphabets are not covered.", "3.7"),
 "C11": ("law-engine", "exploration", "exhaustive operand-pair enumeration against i128/IEEE reference",
         "Every ordered operand pair (same alphabets plus null and repeat counts) × {+,-,*,/} × {exact-kind env, any env} is executed and compared with i128-then-truncate integer arithmetic, IEEE float arithmetic on converted operands, NaN⇒error, zero divisor⇒error, concatenation and max(n,0) repetition.",
         "Reference = Rust i128/f64 arithmetic; string repetition counts above 4096 are excluded (resource exhaustion is out of scope).", "3.7"),
 "C12": ("product-machine", "model_checking", "explicit-state BFS on the real compiler/runtime; constant-vs-runtime invariant on every transition",
         "Same exploration as C01: after every transition every variable for which the compiler recorded a compile-time constant (hook H1) must hold exactly that value at runtime; constant consumers (`10 / x`, `x || .s`, …) are in the alphabet so stale constants also surface as wrong outcomes under C01/C02.",
         "The constant recorded for the external target is never consulted by the compiler and is not judged (DESIGN §8).", "3.1"),
 "C13": ("differential-enumeration", "exploration", "exhaustive enumeration of closure-calling programs against a reference interpreter",
         "All programs calling for_each/filter/map_values/map_keys over {object, array} x {0,1,2 elements, event field} x 7 closure bodies (succeeds, fails on every/2nd element, returns, aborts, assigns its parameter, nested closure) x parameter names pre-bound or unset x {bare, `?? \"failed\"`, `ok, err =`} on the 10-event alphabet; RuntimeState::variable of every parameter name after the run must equal the reference (restored or unset).",
         "As C06. replace_with is exercised by the stdlib sweep only.", "3.2"),
 "C14": ("scheduler + histories", "model_checking", "stateless exhaustive exploration of thread interleavings under a controlled scheduler on the real code; exhaustive event-pair histories; cross-process compile digests",
         "(C) ALL interleavings of 2 threads (thorough 3, preemption bound 3) sharing one Arc<Program> at the scheduling points of hook H3 (thread start and the four lock operations of the schema cache, the only shared mutable state in src/), two-call scenarios with preemption bound 2: every thread's result/event equals its solo run, no deadlock, one schedule replayed twice must give identical observations; (B) run(h); clear(); run(e) vs fresh run(e) for every ordered pair of 5 events x ~1100 accepted programs, shared and recompiled Program, incl. validate_json_schema with a flag-dependent schema; (A) ~2150 programs compiled twice in-process and twice in fresh processes (different hash seeds): identical outcome digest (acceptance, error codes and spans, warnings, ProgramInfo, final types).",
         "Interleavings inside dependencies are not controlled; data races are excluded by the type system (no unsafe shared state). The scheduler models the one RwLock; a new shared-state site is listed in the evidence as unmodelled.", "3.10"),
 "C15": ("config-enumeration", "exploration", "exhaustive enumeration of read-only configurations x mutator programs x events",
         "Every configuration of 1 or 2 read-only entries over 9 event/metadata paths x {recursive, non-recursive} (162) x every mutator statement (355: assignments, |=, `ok, err =` in both positions, del with/without compact, writes inside closures/if/handled blocks over 23 target paths incl. parents, children, quoted aliases, negative indices; whole-event rewrites through stdlib calls and aliases) and ordered mutator pairs under single-entry configurations, on 7 events: a program ACCEPTED under the configuration must leave every read-only path unchanged (deep equality for recursive entries).",
         "Non-recursive entries: only the identity of the value at the path is judged (the configuration permits writes below it).", "3.1"),
 "C17": ("fault-enumeration", "fault_enumeration", "exhaustive enumeration of fault sets over the recorded target-operation trace of each run",
         "~630 accepted programs (target-touching statements of the product-machine alphabet, one statement per direct user of the Target trait on event and metadata, ordered pairs of a core alphabet) x 4 events x {Runtime::resolve, Program::resolve}: the fault-free run on a logging Target gives the operation trace; EVERY non-empty set of <= 2 (thorough 3) operations is made to fail: never a panic; identical outcome, final target and later operations to the run with the same operations SKIPPED; a failing root read ends Runtime::resolve with an error.",
         "Error texts are not compared.", "3.9"),
 "C16": ("product-machine", "model_checking", "explicit-state BFS on the real compiler/runtime with a logging Target; coverage invariant on every target operation",
         "Same exploration as C01 run on a Target wrapper that logs every target_get/get_mut/insert/remove: each read must be covered (equal, ancestor or descendant) by ProgramInfo.target_queries, each insert by target_assignments, each remove by either list.",
         "`del` mutates without assigning: removes may be covered by queries or assignments.", "3.1"),
 "C18": ("value-bfs", "model_checking", "explicit-state BFS over Value states under insert/remove actions on the real crud code",
         "BFS from 9 seed values over insert/remove actions (paths of up to 2 to depth 2 plus paths of 3 to depth 1; thorough: paths of 2 to depth 3 and of 3 to depth 2; segments incl. negative indices and quoted fields; event and metadata prefixes) through TargetValue: read-after-insert, frame law, remove returns what get returned, no access through non-containers.",
         "Frame law restricted to locations the property decides (padding/coercion side effects are recorded, not judged).", "3.5"),
 "C19": ("kind-simulation", "model_checking", "explicit-state BFS over (value, kind) pairs; simulation relation checked on every transition",
         "BFS over pairs (v, K) with v ∈ K under get/insert/remove/union/merge applied to both components: the independent membership predicate must keep holding, and is_superset must agree with membership.",
         "Value-level overwrite merge is observed, not judged (DESIGN §8).", "3.5"),
 "C20": ("law-engine", "exploration", "exhaustive enumeration of owned paths and of short path texts through every renderer/parser",
         "Every owned path of <= 3 segments over 33 segments x {event, metadata, value path} must survive render->parse through String/Display/serde/FromStr/TryFrom/parse_*; every text of <= 5 characters over a 14-character alphabet (plus quoted/bracket frames and hand-picked texts) that both the string path parser and the VRL parser accept must denote the same (prefix, segments), also in ProgramInfo and in what the compiled query reads/writes at runtime.",
         "Texts only one reader accepts are counted, never judged.", "3.6"),
 "C21": ("law-engine", "exploration", "exhaustive enumeration of JSON-representable values x 20 encode/decode routes",
         "Scalars (233 boundary integers, ~60 hard floats and a sign/exponent/significand sweep), all strings of length <= 2 over a 73-character alphabet as values and keys, containers to depth 3 and nesting depth 1..1000, through 13 VRL spellings of parse_json!(encode_json(..)) and 7 serde routes: structural equality, floats within 1 ulp.",
         "The JSON text itself is never judged; sign of zero counted only.", "3.7"),
 "C22": ("law-engine", "exploration", "exhaustive enumeration of byte strings x codec option combinations",
         "All 65,793 byte strings of length <= 2, boundary lengths up to 4097 and large inputs through base16, base64 (15 option pairs), percent (10 sets), punycode, gzip/zlib (all levels), zstd, snappy, lz4 (7 pairs) and 27 charsets: decode(encode(b)) == b and the encoder accepts every in-scope input.",
         "Charset repertoires written down from code charts and cross-checked with Python codecs.", "3.7"),
 "C23": ("law-engine", "exploration", "exhaustive enumeration of algorithms x plaintext lengths x key/IV patterns; ip x mode x key",
         "All 32 algorithms (table cross-checked at run time against the functions' own usage text) x 3 spellings x plaintext lengths 0..50 and block boundaries x 6x6 key/IV patterns; 1296 IPv4 and ~540 IPv6 addresses x 2 modes x 9 keys: decrypt(encrypt(p)) == p, documented key sizes accepted.",
         "A pfx key with equal halves may be rejected with an error (algorithm restriction), never with a panic.", "3.7"),
 "C24": ("law-engine", "exploration", "exhaustive enumeration of flat objects / lists over delimiter-heavy string alphabets x delimiter and parser options",
         "Every one-entry object over all strings of length 1-2 over 13 symbols (space, quotes, backslash, =, comma, colon, |, LF, TAB, é) plus 35 longer words, every two-entry object over the length-1 strings and three-entry objects, x 4 delimiter pairs x parser options x fields_ordering through encode_key_value/parse_key_value and encode_logfmt/parse_logfmt; lists of 0-3 strings x 5 delimiters through encode_csv/parse_csv: the parsed result equals the original.",
         "Non-default parser options are judged differentially (only if the object round-trips with default options).", "3.7"),
 "C25": ("law-engine", "exploration", "exhaustive enumeration of inputs for each inverse pair",
         "flatten/unflatten over objects of depth 1-3 x 4 separators x recursive; to_entries/from_entries; 16^4 IPv4 addresses x 6 compositions (thorough: all 2^32), 4^8 IPv6 addresses; format_int/parse_int for every base 2-36 x boundary integers; unix timestamps x 5 units; format_timestamp/parse_timestamp over 14 full-precision formats x 5 timezone arguments: the composition returns its input.",
         "Mistakes applied symmetrically to both functions of a pair are not visible.", "3.7"),
 "C26": ("law-engine", "exploration", "exhaustive enumeration of messages with <= 4 populated fields per message type",
         "For all 19 message types found in the 4 bundled descriptor sets (read at run time): every object with <= 4 populated fields from per-type edge alphabets (integer widths, floats, strings, bytes, enums, nested messages, repeated, maps with every key type) x allow_lossy_string_coercion omitted/true/false through encode_proto! then parse_proto!, compared after dropping proto3 defaults.",
         "Symmetric bugs inside prost itself are not visible.", "3.7"),
 "C30": ("law-engine", "exploration", "exhaustive enumeration of query texts (token sequences and value strings in grammar positions)",
         "All sequences of 1-4 tokens over 36 grammar tokens with every blank pattern, and all strings of <= 3 symbols over 42 symbols in 21 grammar positions: parse(to_lucene(parse(q))) == parse(q) for every accepted q. Failing cases are attributed to root-cause clauses and the shortest witness per clause is reported.",
         "One witness (the shortest failing text) per root-cause clause; in addition the number of failing cases per clause must not exceed the ceiling listed for that clause in known_findings.json (clause_ceilings), so a change that only adds failing cases to an already failing clause is reported too.", "3.8"),
 "C31": ("law-engine", "exploration", "exhaustive enumeration of leaf queries, boolean compositions and ranges x events against an independent evaluator and compositional identities",
         "2,419 leaf queries x 78 events against an independent evaluator over plain values; 48 boolean templates over a 34-leaf pool and 10 field-group templates (m(NOT q) = not m(q), AND/OR/juxtaposition/precedence); range law [l TO u] = >=l and <=u over 6 fields x 10^2 bounds x 4 bracket forms — all through compiled match_datadog_query.",
         "Behaviour the property leaves open (null/array values, `?` in globs, number-vs-string mixes) is counted, not judged.", "3.8"),
 "C32": ("law-engine", "exploration", "exhaustive enumeration of grok rules x inputs against an independently assembled anchored regex (same engine); all alias digraphs",
         "Literal rules over 36 characters (incl. 14 escaped metacharacters), rule sequences of 1-3 items from 76 items (25 patterns, 8 filters, aliases) on ~330 inputs plus rule-derived inputs, first-match law, many-captures rules, and all digraphs on <= 3 aliases for cycle detection, through parse_groks!.",
         "Reference regex runs under onig (the property is about the translation, not the engine).", "3.8"),
 "C33": ("text-enumeration", "exploration", "exhaustive enumeration of token sequences and single-token edits; every diagnostic label checked and rendered",
         "Every sequence of <= 3 tokens over 104 tokens (both joined and space-separated), <= 4 over 30 unicode/escape-heavy tokens, every single-token edit of 79 corpus programs and 2197 template fills, compiled under a default and a closed typed environment: every label of every diagnostic within the source and on char boundaries; plain and coloured rendering returns Ok. Violating texts are reduced deterministically (each reduction step re-runs the real compiler).",
         "Label accuracy (pointing at the right place) is not judged — the property does not ask for it.", "3.4"),
 "C34": ("program-enumeration", "exploration", "exhaustive enumeration of programs shape(context(candidate)); flagged span blanked and both programs run on all events",
         "408 candidates x 31 contexts x 4 shapes: for every `unused literal|object|result` warning the flagged span is blanked (same byte length); original and edited programs run on 6 events with metadata: infallible flagged text => same success and same final event/metadata; fallible => same final event when the original succeeds.",
         "Positions where deletion cannot parse are counted as not removable and not judged.", "3.11"),
 "C27": ("law-engine", "exploration", "exhaustive enumeration of messages/keys/variants against independent reference digests",
         "Every message of the length/boundary alphabet x every variant of md5, sha1, sha2, sha3, hmac, crc (112 catalogue entries), xxhash (XXH32/64/XXH3-64/128) and seahash, compared with Python hashlib/hmac and hand-written Rocksoft-model CRC, XXH and SeaHash references (self-checked on published vectors).",
         "Python stdlib hashlib/hmac/zlib/binascii trusted; CRC parameters from the reveng catalogue.", "3.7"),
 "C28": ("law-engine", "exploration", "exhaustive enumeration of short strings/collections x option combinations against hand-written references",
         "12 laws (casing idempotence, strip_whitespace, split/join, starts_with/ends_with/contains, truncate, strlen/length, slice, unique, compact with all 2^6 flag settings, keys/values, merge) over all strings up to length 3-4 over edge alphabets and all option combinations.",
         "Unicode White_Space table and case mappings from Rust std; behaviour the property leaves open is counted, not judged.", "3.7"),
 "C29": ("law-engine", "exploration", "exhaustive enumeration of floats/integers x precisions with exact big-integer oracles",
         "round/ceil/floor over ~1900 edge floats x 55 precisions, abs, mod (131k integer pairs), conversions and parse_int over all bases: exact rational/big-integer verdicts (bound 10^-p, direction, finiteness, truncated-remainder signs, mutual consistency).",
         "Two sharpenings beyond the literal bound (exact integer at precision 0; decimal grid where 10^p and x*10^p are normal doubles) are declared in the evidence.", "3.7"),
 "C35": ("law-engine", "exploration", "exhaustive enumeration of conversion names x canonical renderings x default timezones",
         "Conversion::parse/convert on canonical text of integers, floats (4 renderings, bit-exact), every letter-case boolean spelling, and 158 instants in RFC 3339 and 24 strftime formats under 11 default zones and 3 TZ environments.",
         "Canonical text = Rust Display / chrono formatting; ambiguous local times are skipped and counted.", "3.7"),
 "C36": ("law-engine", "exploration", "exhaustive enumeration of programs x timezones; results compared across zones",
         "Timestamp programs, log parsers and 606 deterministic stdlib examples are each run under UTC twice, 9 other named zones and Local (3 TZ environments): zone-free programs must give identical results; zone readers are counted.",
         "The zone-reader list is derived from Context::timezone() users in the pinned tree.", "3.7"),
}

ENGINES = [
 ("product-machine", "harness/src/props/pm.rs", "explicit-state BFS over statement sequences; a transition = compile_with_state + Program::resolve on the real code; whole-path recompilation as conformance"),
 ("differential-enumeration", "harness/src/props/diff.rs", "all programs of a focused grammar x all events, real compiler/runtime vs. reference interpreter (harness/src/model/interp.rs)"),
 ("stdlib-sweep", "harness/src/props/sweep.rs", "every stdlib function x bounded-exhaustive argument tuples in sacrificial worker processes with a CPU-time watchdog"),
 ("law-engine", "harness/src/law.rs", "flat exhaustive enumeration of fully described cases through compiled VRL snippets / public APIs, compared with a reference"),
 ("text-enumeration", "harness/src/props/c33.rs", "all token sequences / single-token edits through parse, compile and diagnostic rendering"),
 ("program-enumeration", "harness/src/props/c34.rs", "all programs of a candidate x context grammar; edit-and-compare"),
 ("scheduler + histories", "harness/src/sched.rs", "CHESS-style controlled scheduler over real OS threads at hook H3's points; depth-first enumeration of all schedules by re-execution (harness/src/props/c14.rs)"),
 ("config-enumeration", "harness/src/props/c15.rs", "all read-only configurations x mutator programs x events"),
 ("fault-enumeration", "harness/src/props/c17.rs", "all fault sets over recorded target-operation traces (harness/src/target.rs)"),
 ("value-bfs", "harness/src/props/c18.rs", "explicit-state BFS over Value states on the real crud code"),
 ("kind-simulation", "harness/src/props/c19.rs", "explicit-state BFS over (value, kind) pairs; simulation relation"),
]

PENDING_REASON = "check not built yet (design in DESIGN.md §3); will be claimed once its engine exists"

def main():
    props = [json.loads(l) for l in open(os.path.join(ROOT, "properties.jsonl"))]
    checks, na = [], []
    for p in props:
        pid = p["id"]
        if pid in CHECKS:
            engine, level, tech, text, note, ref = CHECKS[pid]
            checks.append({
                "property_id": pid,
                "quick_cmd": f"bin/check {pid} --tier quick",
                "thorough_cmd": f"bin/check {pid} --tier thorough",
                "evidence_file": f"/verif/evidence/{pid}.json",
                "replay_cmd_template": "bin/check replay {path}",
                "engine": engine,
                "level_claimed": {"category": level, "text": text, "design_ref": f"DESIGN.md §{ref}"},
                "level_note": note,
                "technique": tech,
            })
        else:
            na.append({"property_id": pid, "reason": PENDING_REASON})
    hooks_commits = subprocess.run(["git", "-C", "/repo", "log", "--format=%H %s", "--grep=^verif hooks"],
                                   capture_output=True, text=True).stdout.strip().splitlines()
    m = {
        "version": 1,
        "setup_cmd": "cd /verif/harness && CARGO_NET_OFFLINE=true CARGO_TARGET_DIR=/verif/target cargo build --release --offline",
        "hooks": {
            "guard": "cargo feature `verif-hooks` of crate vrl (off by default)",
            "enable": "harness/Cargo.toml depends on vrl = { path = \"/repo\", features = [..., \"verif-hooks\"] }",
            "baseline_off_cmd": "cd /repo && cargo nextest run --workspace --no-fail-fast --tool-config-file pb:/w/lib/nextest.toml --profile pb --test-threads 8 --offline",
            "source_commits": [c.split()[0] for c in hooks_commits],
            "add_only": True,
        },
        "engines": [
            {"name": n, "path": p_, "serves_properties": [k for k, v in CHECKS.items() if v[0].startswith(n)], "kind_free_text": t}
            for (n, p_, t) in ENGINES
        ],
        "checks": checks,
        "not_applicable": na,
        "notes": "All checks: bin/check <ID> --tier quick|thorough rebuilds the harness + /repo working tree (incremental) and runs the exhaustive enumeration; evidence is written by the harness itself.",
    }
    json.dump(m, open(os.path.join(ROOT, "MANIFEST.json"), "w"), indent=1)
    print(f"{len(checks)} checks, {len(na)} pending")

if __name__ == "__main__":
    main()
