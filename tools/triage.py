#!/usr/bin/env python3
"""Offline triage helper (never run by a check): reads a VERIF_EMIT_UNLISTED dump, groups the
violations with the per-property RULES below (reviewed by hand), and writes/extends
known/<ID>/<finding>.witnesses plus the entries of known_findings.json.

usage: triage.py <ID> <unlisted.jsonl> [--apply]
Without --apply it only prints the grouping (counts + one example per group)."""
import json, sys, os, collections

ROOT = os.path.dirname(os.path.dirname(os.path.abspath(__file__)))


def shape(p):
    return ''.join('F' if isinstance(s, str) else ('N' if s < 0 else 'P') for s in p)


def c19_rule(d):
    w = d['witness']
    cl = d['clause']
    if 'trace' not in w:
        return ('superset-unsound', 'Kind::is_superset accepts a pair although an enumerated member of the subtype is not a member of the supertype')
    t = w['trace']
    last = t[-1] if t else {}
    path = last.get('path', [])
    neg = any(isinstance(s, int) and s < 0 for s in path)
    if cl == 'C19.subtype-test-rejects-member':
        return ('superset-incomplete', 'Kind::is_superset rejects the exact kind of a value that is a member (collection known/unknown comparison is stricter than membership)')
    if cl.startswith('C19.merge'):
        return ('merge-unknown-overwrite', 'Kind::merge: merging collections with exact unknowns/known fields yields a kind that does not contain the shallow-merged value (Collection::merge / Unknown::merge with overwrite)')
    if neg:
        return ('negative-index-length', 'Kind get/insert/remove with a negative index assume the array length is largest-known-index+1 although known elements may be optional or the kind may be a union; result kind misses the real value')
    if cl == 'C19.insert':
        return ('insert-into-non-container-alternative', 'Kind::insert keeps the known fields/indices of the collection alternative as required although the value may have been a non-collection (or padded) and is rebuilt with only the inserted element')
    if cl in ('C19.remove', 'C19.removed-value', 'C19.removed-nothing'):
        return ('remove-positive-index', 'Kind::remove at a positive index on arrays with optional/unknown elements yields a kind that does not contain the value after removal (shift/compaction reasoning)')
    if cl.startswith('C19.get'):
        return ('get-path', 'Kind::at_path/get result does not contain the value read at the path')
    return None


def by_clause_rule(pid):
    table = json.load(open(os.path.join(ROOT, 'tools', 'finding_texts.json'))).get(pid, {})
    def rule(d):
        cl = d['clause']
        for key, (fid, text) in table.items():
            if cl == key or (key.endswith('*') and cl.startswith(key[:-1])) or (key.startswith('~') and key[1:] in cl):
                return (fid, text)
        return None
    return rule


PM_CLASSES = [
    # (id, predicate on (clause, last statement, earlier statements), description)
    ('closure-effects-not-typed', lambda cl, last, prev: '->' in last and 'map_keys' not in last,
     'assignments/deletes made inside a closure body (for_each/map_values/filter …) are not reflected in the type state after the call (closure bodies are typed as if they ran exactly once / never; upstream TODO): `x = "s"; for_each([1]) -> |_i, _v| { x = 0 }` leaves x typed string holding 0'),
    ('map_keys-type_def', lambda cl, last, prev: 'map_keys' in last,
     'map_keys keeps the type of the input object (known field names unchanged) although the closure renames the keys: map_keys({"a": 1}) -> |k| { upcase(k) } is typed { a: integer } and returns {"A": 1}'),
    ('del-on-variable-path-not-typed', lambda cl, last, prev: last.startswith(('del(x', 'del(y', 'x = del(x', 'x = del(y')),
     'del() on a variable path removes the value at runtime but the variable keeps its old type (and constant): `x = {"b": 1}; del(x.b)` leaves x typed { b: integer } holding {}'),
    ('block-scoped-variable-leak', lambda cl, last, prev: (any(p.startswith(('{ x =', 'if .c == true { x', 'y = { x')) for p in prev) and last.startswith(('x.q, err', 'x[', 'x.b')))
        or (last == 'z = (.c == true && (x = true))' and any(('{ x =' in p or '; x =' in p or '{ x,' in p) for p in prev)),
     'a variable first bound inside a block is invisible to the compiler after the block but stays in the runtime store; a later path assignment `x[2] = 1` / `x.q, err = …` is typed as creating a fresh container while it updates the leaked value, and a later conditional binding `.c == true && (x = true)` is typed boolean or null while the leaked value survives when the binding is skipped'),
    ('negative-index-typing', lambda cl, last, prev: '[-' in last,
     'Kind::insert/remove with a negative index assume the array length they can prove (and pad at the wrong end past the front): `x = [1, "s"]; x[-3] = 1` types x as [integer, string, null] while it holds [1, 1, "s"] (pinned by value::kind::crud::insert::tests::test_insert)'),
    ('slice-type_def', lambda cl, last, prev: 'slice(' in last,
     'slice keeps the element types at their original positions: slice([1, "s", true], 1) is typed [integer, …] and returns ["s", true]'),
    ('or-with-undefined-lhs', lambda cl, last, prev: '|| .a.b' in last or '.a || 7' in last,
     '`a || b` whose left side is statically `undefined` (missing field of a closed object, read after del(.)) is typed undefined/null instead of the type of b: `x = .a[0] || .a.b` holds 2, typed null'),
    ('unnest-type_def', lambda cl, last, prev: 'unnest' in last,
     'unnest computes its element types from known indices that may be absent at runtime (after a conditional del): required elements of the result type are missing'),
    ('remove-type_def-never', lambda cl, last, prev: 'remove!' in last,
     'remove!(value: <any-typed>, …) is typed `never` (type_def only adds array/object when the value is EXACTLY an array/object): the returned object is outside the result type'),
    ('map_values-on-variable', lambda cl, last, prev: False, ''),
    ('negative-index-typing', lambda cl, last, prev: any('[-' in p for p in prev),
     'Kind::insert/remove with a negative index assume the array length they can prove (and pad at the wrong end past the front): `x = [1, "s"]; x[-3] = 1` types x as [integer, string, null] while it holds [1, 1, "s"] (pinned by value::kind::crud::insert::tests::test_insert)'),
    ('path-insert-into-union-of-containers', lambda cl, last, prev: (last.startswith(('x[', 'x.', 'y[', 'y.')) or last.startswith(('if .c == true { x.', 'if .c == true { x['))) and any(p.startswith('if (') or '&& { x = ' in p or '|| { x = ' in p for p in prev),
     'Kind::insert on a kind that is a UNION of an array and an object (variable assigned different containers in the two branches of an if) keeps the known elements of the matching alternative as required although the value may have been the other alternative and is rebuilt from scratch: `if (x = [1]; .c == true) { x = {} } else { y = x }; x[2] = 1` holds [null, null, 1], typed [integer, null, integer]; likewise for a union of a container and a scalar: `x = {"c": 1}; z = (.c == true && { x = "s"; true }); x.b = 2` holds {"b": 2}, typed { b: integer, c: integer } (same root cause as C19 insert-into-non-container-alternative)'),
    ('conditional-mutation-then-index-crud', lambda cl, last, prev: any(p.startswith('if .c == true {') for p in prev),
     'after a conditional mutation the merged array/object type keeps per-index knowledge (`[string or integer, boolean or undefined]`, `integer or array`) that later index insert/delete/push/compact operations treat as exact: elements end up at other positions than their types'),
]


def corpus_rule(d):
    w = d['witness']
    f = w.get('corpus_file', '?')
    fid = 'corpus-' + f.replace('/', '-').replace('.vrl', '')
    return (fid, f"the repository's own corpus program lib/tests/tests/{f}, run on its declared input object: {d['clause']} — expected {d['expected'][:140]}; observed {d['observed'][:140]}")


def pm_rule(d):
    w = d['witness']
    if str(w.get('config', '')).startswith('corpus'):
        return corpus_rule(d)
    prog = w['program']
    last, prev = prog[-1], prog[:-1]
    for fid, pred, text in PM_CLASSES:
        if pred(d['clause'], last, prev):
            return (fid, text)
    return None


def pm_rule_any(d):
    # root cause may sit in ANY statement of the path (C02/C12 observe the consequence later)
    if str(d['witness'].get('config', '')).startswith('corpus'):
        return corpus_rule(d)
    prog = d['witness']['program']
    txt = ' ; '.join(prog)
    if '->' in txt and 'map_keys' not in txt:
        return ('closure-effects-not-typed', PM_CLASSES[0][2])
    if any(p.startswith(('del(x', 'del(y', 'x = del(x', 'x = del(y')) for p in prog):
        return ('del-on-variable-path-not-typed', PM_CLASSES[2][2])
    if '|| .a.b' in txt or '.a || 7' in txt:
        return ('or-with-undefined-lhs', PM_CLASSES[6][2])
    return pm_rule(d)


SWEEP_TEXT = {
    'C03.infallible-call-errors': 'a call of `{fn}` that the compiler types as infallible (no `!` needed) returns a runtime error for some argument values',
    'C03.result-in-declared-type': 'the value returned by `{fn}` is outside the type its type_def declares for those argument types',
    'C03.result-in-return-kind': 'the value returned by `{fn}` has a root kind outside its documented return_kind()',
    'C03.wrong-typed-runtime-argument-errors': '`{fn}` accepts a runtime argument whose type is outside the declared parameter kind instead of returning an error',
    'C04.run-panic': '`{fn}` panics at runtime',
    'C04.compile-panic': '`{fn}` panics inside Function::compile',
    'C05.call-does-not-return': 'a call of `{fn}` on a few bytes of input does not return within 20 s of CPU time',
    'C05.unbounded-allocation-request': 'a call of `{fn}` requests an allocation derived from an extreme count (capacity overflow panic)',
    'C05.output-out-of-proportion': 'a call of `{fn}` on a few bytes of input returns more than 4 MiB',
    'C05.worker-died-resource-exhaustion': 'a call of `{fn}` on a few bytes of input exhausts the 3 GiB address space (the worker process aborts)',
}


def sweep_rule(d):
    fn = d['witness'].get('fn')
    cl = d['clause']
    if fn is None or cl not in SWEEP_TEXT:
        return None
    ex = d['witness']
    call = f"{fn}({ex.get('args','')}){ex.get('closure','')}".replace('\n', ' ')
    if ex.get('mode') == 'runtime':
        call += ' with ' + json.dumps(ex.get('event_src'))
    return (f"{fn}-{cl.split('.',1)[1]}", SWEEP_TEXT[cl].format(fn=fn) + f"; e.g. {call[:160]} → {d['observed'][:160]}")


def c24_rule(d):
    w = d['witness']
    obj = w.get('obj') or {}
    strs = list(obj.keys()) + [v for v in obj.values() if isinstance(v, str)]
    txt = ''.join(strs)
    if '\n' in txt:
        return ('newline-double-escaped', "encode_key_value/encode_logfmt write a newline as backslash-backslash-n (`'\\n' => r\"\\\\n\"` in src/core/encode_key_value.rs, pinned by its own unit test), which the parser reads back as the two characters `\\n`, never LF: {\" \": \"\\n\"} does not round-trip")
    if '\\' in txt:
        return ('backslash-doubled-outside-quotes', "the encoder doubles `\\` even in an unquoted field, but the parser un-escapes only inside quoted fields: {\"\\\\\": \"é\"} encodes to `\\\\=é` and parses as a two-backslash key")
    if any(t.startswith("'") for t in strs):
        return ('leading-single-quote', "the parser treats `'` as a quote character but the encoder never quotes or escapes it: {\"'\": \"'\"} encodes to `'='` and parses as {\"=\": true}")
    return ('custom-delimiter-not-quoted', "needs_quoting only looks at whitespace, `\"` and `=`: with custom delimiters a key/value containing the field delimiter or the key-value delimiter is written bare (`{\":\": \":\"}` with `:`/`,` encodes to `:::`) and is split at the wrong place or rejected")


RULES = {'C24': c24_rule, 'C19': c19_rule, 'C01': pm_rule, 'C02': pm_rule_any, 'C12': pm_rule_any, 'C03': sweep_rule, 'C04': sweep_rule, 'C05': sweep_rule}


def main():
    pid, path = sys.argv[1], sys.argv[2]
    apply = '--apply' in sys.argv
    rule = RULES.get(pid) or by_clause_rule(pid)
    groups = collections.defaultdict(list)
    summaries = {}
    unmatched = []
    for line in open(path):
        d = json.loads(line)
        r = rule(d)
        if r is None:
            unmatched.append(d)
            continue
        groups[r[0]].append(d)
        summaries.setdefault(r[0], r[1])
    for g, ds in sorted(groups.items(), key=lambda x: -len(x[1])):
        ex = ds[0]
        print(f"{len(ds):8d} {g}: {summaries[g]}")
        print("         e.g.", json.dumps(ex['witness'])[:300])
        print("              expected:", ex['expected'][:160], "| observed:", ex['observed'][:160])
    print(f"{len(unmatched)} unmatched")
    for d in unmatched[:10]:
        print("   ", d['clause'], json.dumps(d['witness'])[:300])
    if not apply:
        return
    if unmatched:
        print("refusing to apply with unmatched violations")
        sys.exit(1)
    kf_path = os.path.join(ROOT, 'known_findings.json')
    kf = json.load(open(kf_path))
    os.makedirs(os.path.join(ROOT, 'known', pid), exist_ok=True)
    for g, ds in groups.items():
        fid = f"{pid}-{g}"
        rel = f"known/{pid}/{g}.witnesses"
        full = os.path.join(ROOT, rel)
        hashes = set()
        if os.path.exists(full):
            hashes = {l.split()[0] for l in open(full) if l.strip() and not l.startswith('#')}
        hashes |= {d['hash'] for d in ds}
        with open(full, 'w') as f:
            f.write(f"# {fid}: exact witness hashes (property|clause|witness), generated by tools/triage.py from the pinned tree; never written by a check\n")
            for h in sorted(hashes):
                f.write(h + "\n")
        entry = next((e for e in kf['findings'] if e['id'] == fid), None)
        if entry is None:
            entry = {'id': fid, 'property': pid}
            kf['findings'].append(entry)
        ex = ds[0]
        entry.update({'summary': summaries[g], 'example': {'clause': ex['clause'], 'witness': ex['witness'], 'expected': ex['expected'][:300], 'observed': ex['observed'][:300]},
                      'witnesses_file': rel, 'witness_count': len(hashes)})
    json.dump(kf, open(kf_path, 'w'), indent=1)
    print("applied")


if __name__ == '__main__':
    main()
