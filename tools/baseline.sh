#!/usr/bin/env bash
# Run the repository's pinned suite (hooks OFF) in DIR (default /repo) and compare with BASELINE.json.
# usage: tools/baseline.sh [DIR]   -> prints missing/failed stable tests; exit 0 iff all 1898 stable tests pass.
DIR="${1:-/repo}"
cd "$DIR" || exit 2
export CARGO_NET_OFFLINE=true
OUT=$(mktemp -d /var/tmp/baseline.XXXXXX)
cargo nextest run --workspace --no-fail-fast --tool-config-file pb:/w/lib/nextest.toml --profile pb --test-threads 8 --offline >"$OUT/log" 2>&1
rc=$?
J=$(find "${CARGO_TARGET_DIR:-$DIR/target}/nextest/pb" -name junit.xml | head -1)
python3 - "$J" <<'PY'
import json,sys,xml.etree.ElementTree as ET
b=json.load(open('/root/.vp/BASELINE.json'))
root=ET.parse(sys.argv[1]).getroot()
passed=set();failed=set()
for tc in root.iter('testcase'):
    tid=(tc.get('classname') or '')+'::'+(tc.get('name') or '')
    bad=any(ch.tag in('failure','error') for ch in tc)
    (failed if bad else passed).add(tid)
passed-=failed
st=set(b['stable_pass'])
miss=sorted(st-passed)
print(f"stable={len(st)} passed_now={len(passed)} failed_now={len(failed)} stable_not_passing={len(miss)}")
for m in miss[:40]: print("  NOT PASSING:",m)
sys.exit(1 if miss else 0)
PY
r=$?
echo "nextest rc=$rc log=$OUT/log"
exit $r
