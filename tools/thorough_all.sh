#!/usr/bin/env bash
# Run the thorough tier of the given checks one after another, adding their unlisted witnesses to the known lists
# (by hand, on the unchanged tree, after the quick-tier classes were reviewed). Evidence goes to work/thorough-ev/.
cd /verif
for p in "$@"; do
  s=$(date +%s)
  VERIF_ROOT=/verif/work/thorough-root; mkdir -p $VERIF_ROOT
  out=$(bin/check-at /verif/work/thorough-root $p --tier thorough 2>&1 | tail -1)
  # emit unlisted with the real known lists (check-at copies them)
  VERIF_EMIT_UNLISTED=/verif/work/$p.unlisted.thorough.jsonl VERIF_ROOT=/verif/work/thorough-root timeout 14400 target/release/vrlmc check $p --tier thorough >/dev/null 2>&1
  n=$(wc -l < /verif/work/$p.unlisted.thorough.jsonl 2>/dev/null || echo 0)
  r=$(python3 tools/triage.py $p work/$p.unlisted.thorough.jsonl --apply 2>&1 | grep -E "unmatched|applied|refusing" | tr '\n' ' ')
  echo "$p $(( $(date +%s) - s ))s unlisted=$n :: $out :: $r"
done
